package main

import (
	"fmt"
	"go/ast"
	"go/token"
	"go/types"
	"os"
	"sort"
	"strings"

	"golang.org/x/tools/go/packages"
)

// View pass "context parameters that are context.Background() everywhere".
//
// Threading a context.Context through a few layers, with context.Background() at every root, is
// the other common signature-only change.  It is undone by constant propagation, which preserves
// the meaning exactly: a context.Context parameter that the baseline signature of the function did
// not have, that the body never assigns, and for which every call site passes
// context.Background() / context.TODO(), a local defined once as such, or the caller's own
// parameter of this kind, becomes `var ctx context.Context = context.Background()` in the body and
// disappears from the call sites; http.NewRequestWithContext(<such a context>, m, u, b) is written
// back as http.NewRequest(m, u, b), which is its definition.

func isBackgroundCall(info *types.Info, e ast.Expr) bool {
	call, ok := e.(*ast.CallExpr)
	if !ok || len(call.Args) != 0 {
		return false
	}
	sel, ok := call.Fun.(*ast.SelectorExpr)
	if !ok {
		return false
	}
	f, _ := info.Uses[sel.Sel].(*types.Func)
	return f != nil && f.Pkg() != nil && f.Pkg().Path() == "context" && (f.Name() == "Background" || f.Name() == "TODO")
}

func isContextType(t types.Type) bool {
	n, ok := t.(*types.Named)
	return ok && n.Obj().Pkg() != nil && n.Obj().Pkg().Path() == "context" && n.Obj().Name() == "Context"
}

func dropBackgroundCtxParams(pkgs []*packages.Package, base map[string][]byte) *inlineResult {
	res := &inlineResult{Overlay: map[string][]byte{}}
	for k, v := range base {
		res.Overlay[k] = v
	}
	if len(baselineSigs) == 0 {
		return res
	}
	type cand struct {
		obj  *types.Func
		fd   *ast.FuncDecl
		pkg  *packages.Package
		vars []*types.Var
		ctx  map[int]bool
	}
	var fset *token.FileSet
	cands := map[*types.Func]*cand{}
	paramOwner := map[*types.Var]*cand{}
	var jiva []*packages.Package
	packages.Visit(pkgs, nil, func(p *packages.Package) {
		if !isJivaPkg(p.Types) {
			return
		}
		jiva = append(jiva, p)
		fset = p.Fset
		for _, f := range p.Syntax {
			for _, d := range f.Decls {
				fd, ok := d.(*ast.FuncDecl)
				if !ok || fd.Body == nil {
					continue
				}
				obj, _ := p.TypesInfo.Defs[fd.Name].(*types.Func)
				if obj == nil {
					continue
				}
				bsig, ok := baselineSigs[funcObjName(obj)]
				if !ok || strings.Contains(bsig, "context.Context") {
					continue
				}
				sig := obj.Type().(*types.Signature)
				if sig.Variadic() {
					continue
				}
				c := &cand{obj: obj, fd: fd, pkg: p, ctx: map[int]bool{}}
				for i := 0; i < sig.Params().Len(); i++ {
					v := sig.Params().At(i)
					c.vars = append(c.vars, v)
					if isContextType(v.Type()) && v.Name() != "" {
						c.ctx[i] = true
					}
				}
				if len(c.ctx) == 0 {
					continue
				}
				// the body never assigns the parameter or takes its address
				for i := range c.ctx {
					v := c.vars[i]
					ast.Inspect(fd.Body, func(n ast.Node) bool {
						switch x := n.(type) {
						case *ast.AssignStmt:
							for _, l := range x.Lhs {
								if id, ok := l.(*ast.Ident); ok && (p.TypesInfo.Uses[id] == types.Object(v) || p.TypesInfo.Defs[id] == types.Object(v)) {
									delete(c.ctx, i)
								}
							}
						case *ast.UnaryExpr:
							if id, ok := x.X.(*ast.Ident); ok && x.Op == token.AND && p.TypesInfo.Uses[id] == types.Object(v) {
								delete(c.ctx, i)
							}
						}
						return true
					})
				}
				if len(c.ctx) == 0 {
					continue
				}
				cands[obj] = c
				for i := range c.ctx {
					paramOwner[c.vars[i]] = c
				}
			}
		}
	})
	if len(cands) == 0 {
		return res
	}
	// stable background locals: defined once by `x := context.Background()` and never assigned again
	type localDef struct {
		stmt ast.Stmt
		file string
	}
	bgLocal := map[*types.Var]localDef{}
	for _, p := range jiva {
		assigned := map[*types.Var]int{}
		for _, f := range p.Syntax {
			file := p.Fset.Position(f.Pos()).Filename
			ast.Inspect(f, func(n ast.Node) bool {
				as, ok := n.(*ast.AssignStmt)
				if !ok {
					return true
				}
				for i, l := range as.Lhs {
					id, ok := l.(*ast.Ident)
					if !ok {
						continue
					}
					if v, ok := p.TypesInfo.Defs[id].(*types.Var); ok && as.Tok == token.DEFINE && len(as.Lhs) == len(as.Rhs) && isBackgroundCall(p.TypesInfo, as.Rhs[i]) {
						bgLocal[v] = localDef{as, file}
					} else if v, ok := p.TypesInfo.Uses[id].(*types.Var); ok {
						assigned[v]++
					}
				}
				return true
			})
		}
		for v := range bgLocal {
			if assigned[v] > 0 {
				delete(bgLocal, v)
			}
		}
	}
	// call sites
	type site struct {
		p    *packages.Package
		call *ast.CallExpr
		c    *cand
	}
	var sites []site
	bad := map[*types.Func]bool{}
	usesLocal := map[*types.Var]bool{}
	argOK := func(p *packages.Package, a ast.Expr) (ok bool, passThrough *cand, local *types.Var) {
		if isBackgroundCall(p.TypesInfo, a) {
			return true, nil, nil
		}
		if id, isID := a.(*ast.Ident); isID {
			if v, isVar := p.TypesInfo.Uses[id].(*types.Var); isVar {
				if oc := paramOwner[v]; oc != nil {
					return true, oc, nil
				}
				if _, isBG := bgLocal[v]; isBG {
					return true, nil, v
				}
			}
		}
		return false, nil, nil
	}
	deps := map[*types.Func][]*types.Func{} // callee candidate depends on the caller's parameter staying a candidate
	for _, p := range jiva {
		asFun := map[*ast.Ident]bool{}
		for _, f := range p.Syntax {
			ast.Inspect(f, func(n ast.Node) bool {
				call, ok := n.(*ast.CallExpr)
				if !ok {
					return true
				}
				var id *ast.Ident
				switch fn := call.Fun.(type) {
				case *ast.Ident:
					id = fn
				case *ast.SelectorExpr:
					id = fn.Sel
				}
				if id == nil {
					return true
				}
				callee, _ := p.TypesInfo.Uses[id].(*types.Func)
				c := cands[callee]
				if c == nil {
					return true
				}
				asFun[id] = true
				if len(call.Args) != len(c.vars) || call.Ellipsis.IsValid() {
					bad[callee] = true
					return true
				}
				for i := range c.ctx {
					ok, through, local := argOK(p, call.Args[i])
					if !ok {
						bad[callee] = true
					}
					if through != nil {
						deps[callee] = append(deps[callee], through.obj)
					}
					if local != nil {
						usesLocal[local] = true
					}
				}
				sites = append(sites, site{p, call, c})
				return true
			})
		}
		for id, obj := range p.TypesInfo.Uses {
			if fn, ok := obj.(*types.Func); ok && cands[fn] != nil && !asFun[id] {
				bad[fn] = true
			}
		}
	}
	for changed := true; changed; {
		changed = false
		for callee, froms := range deps {
			if bad[callee] {
				continue
			}
			for _, f := range froms {
				if bad[f] {
					bad[callee] = true
					changed = true
				}
			}
		}
	}
	src := map[string][]byte{}
	get := func(file string) []byte {
		if b, ok := src[file]; ok {
			return b
		}
		b, ok := base[file]
		if !ok {
			b, _ = os.ReadFile(file)
		}
		src[file] = b
		return b
	}
	edits := map[string][]inlineEdit{}
	dropped := map[*types.Var]bool{}
	var names []string
	for obj, c := range cands {
		if bad[obj] {
			continue
		}
		file := fset.Position(c.fd.Pos()).Filename
		b := get(file)
		text := func(nd ast.Node) string {
			return string(b[fset.Position(nd.Pos()).Offset:fset.Position(nd.End()).Offset])
		}
		var keep, locals []string
		idx := 0
		for _, fld := range c.fd.Type.Params.List {
			if len(fld.Names) == 0 {
				keep = append(keep, text(fld.Type))
				idx++
				continue
			}
			for _, nm := range fld.Names {
				if c.ctx[idx] {
					locals = append(locals, fmt.Sprintf("var %s %s = context.Background(); _ = %s;", nm.Name, text(fld.Type), nm.Name))
					dropped[c.vars[idx]] = true
				} else {
					keep = append(keep, nm.Name+" "+text(fld.Type))
				}
				idx++
			}
		}
		ps, pe := fset.Position(c.fd.Type.Params.Opening).Offset+1, fset.Position(c.fd.Type.Params.Closing).Offset
		edits[file] = append(edits[file], inlineEdit{ps, pe, strings.Join(keep, ", ")})
		lb := fset.Position(c.fd.Body.Lbrace).Offset + 1
		edits[file] = append(edits[file], inlineEdit{lb, lb, " " + strings.Join(locals, " ")})
		names = append(names, funcObjName(obj))
	}
	if len(names) == 0 {
		return res
	}
	for _, s := range sites {
		if bad[s.c.obj] {
			continue
		}
		file := fset.Position(s.call.Pos()).Filename
		get(file)
		for i := range s.c.vars {
			if !s.c.ctx[i] {
				continue
			}
			a := s.call.Args[i]
			var st, en int
			if i+1 < len(s.call.Args) {
				st, en = fset.Position(a.Pos()).Offset, fset.Position(s.call.Args[i+1].Pos()).Offset
			} else if i > 0 {
				st, en = fset.Position(s.call.Args[i-1].End()).Offset, fset.Position(a.End()).Offset
			} else {
				st, en = fset.Position(a.Pos()).Offset, fset.Position(a.End()).Offset
			}
			edits[file] = append(edits[file], inlineEdit{st, en, ""})
		}
	}
	// a background local whose uses were removed must stay "used"
	for v := range usesLocal {
		d := bgLocal[v]
		get(d.file)
		en := fset.Position(d.stmt.End()).Offset
		edits[d.file] = append(edits[d.file], inlineEdit{en, en, "; _ = " + v.Name()})
	}
	// http.NewRequestWithContext(<background>, m, u, b) == http.NewRequest(m, u, b)
	for _, p := range jiva {
		for _, f := range p.Syntax {
			file := p.Fset.Position(f.Pos()).Filename
			ast.Inspect(f, func(n ast.Node) bool {
				call, ok := n.(*ast.CallExpr)
				if !ok || len(call.Args) != 4 {
					return true
				}
				sel, ok := call.Fun.(*ast.SelectorExpr)
				if !ok {
					return true
				}
				fn, _ := p.TypesInfo.Uses[sel.Sel].(*types.Func)
				if fn == nil || fn.Pkg() == nil || fn.Pkg().Path() != "net/http" || fn.Name() != "NewRequestWithContext" {
					return true
				}
				a := call.Args[0]
				okCtx := isBackgroundCall(p.TypesInfo, a)
				if id, isID := a.(*ast.Ident); isID {
					if v, isVar := p.TypesInfo.Uses[id].(*types.Var); isVar {
						if dropped[v] {
							okCtx = true
						}
						if _, isBG := bgLocal[v]; isBG {
							okCtx = true
							if !usesLocal[v] {
								usesLocal[v] = true
								d := bgLocal[v]
								get(d.file)
								en := fset.Position(d.stmt.End()).Offset
								edits[d.file] = append(edits[d.file], inlineEdit{en, en, "; _ = " + v.Name()})
							}
						}
					}
				}
				if !okCtx {
					return true
				}
				get(file)
				edits[file] = append(edits[file],
					inlineEdit{fset.Position(sel.Sel.Pos()).Offset, fset.Position(sel.Sel.End()).Offset, "NewRequest"},
					inlineEdit{fset.Position(a.Pos()).Offset, fset.Position(call.Args[1].Pos()).Offset, ""})
				return true
			})
		}
	}
	// a file that only mentioned the package in a dropped argument still imports it
	ctxName := map[string]string{}
	for _, p := range jiva {
		for _, f := range p.Syntax {
			for _, im := range f.Imports {
				if im.Path.Value == `"context"` {
					n := "context"
					if im.Name != nil {
						n = im.Name.Name
					}
					if n != "_" && n != "." {
						ctxName[p.Fset.Position(f.Pos()).Filename] = n
					}
				}
			}
		}
	}
	sort.Strings(names)
	res.Count = len(names)
	res.Notes = append(res.Notes, "context.Context parameter(s) that are context.Background() at every root turned back into locals, arguments dropped at the call sites: "+strings.Join(names, ", "))
	for file, es := range edits {
		sort.Slice(es, func(i, j int) bool {
			if es[i].start != es[j].start {
				return es[i].start < es[j].start
			}
			return es[i].end > es[j].end
		})
		var keep []inlineEdit
		lastEnd := -1
		for _, e := range es {
			if e.start < lastEnd {
				continue
			}
			keep = append(keep, e)
			if e.end > lastEnd {
				lastEnd = e.end
			}
		}
		out := append([]byte{}, get(file)...)
		for i := len(keep) - 1; i >= 0; i-- {
			e := keep[i]
			out = append(out[:e.start], append([]byte(e.text), out[e.end:]...)...)
		}
		if n := ctxName[file]; n != "" {
			out = append(out, []byte("\nvar _ = "+n+".Background\n")...)
		}
		res.Overlay[file] = out
	}
	return res
}
