package main

import (
	"fmt"
	"go/ast"
	"go/token"
	"go/types"
	"os"
	"sort"
	"strings"

	"golang.org/x/tools/go/packages"
)

// View pass "a new package-level function variable that is only ever called".
//
// `var fetch = func(a string) (int64, error) { ... }` - a seam for tests - is, as long as nothing
// assigns it, takes its address or passes it on, the function declaration `func fetch(a string)
// (int64, error) { ... }`.  The view writes it that way; the declaration is then a new helper like
// any other and the expansion rounds see through it.  Only variables declared alone (`var x = func...`, not inside a parenthesised group), unexported or
// exported alike but used in their own package only as the function of a call.
func funcVarsToFuncs(pkgs []*packages.Package, base map[string][]byte) *inlineResult {
	res := &inlineResult{Overlay: map[string][]byte{}}
	for k, v := range base {
		res.Overlay[k] = v
	}
	if baselineFns == nil {
		return res
	}
	type cand struct {
		p    *packages.Package
		gd   *ast.GenDecl
		vs   *ast.ValueSpec
		lit  *ast.FuncLit
		file string
	}
	cands := map[types.Object]*cand{}
	var jiva []*packages.Package
	packages.Visit(pkgs, nil, func(p *packages.Package) {
		if !isJivaPkg(p.Types) {
			return
		}
		jiva = append(jiva, p)
		if strings.Contains(p.PkgPath, "/tests/") {
			return
		}
		for _, f := range p.Syntax {
			for _, d := range f.Decls {
				gd, ok := d.(*ast.GenDecl)
				if !ok || gd.Tok != token.VAR || gd.Lparen.IsValid() || len(gd.Specs) != 1 {
					continue
				}
				vs := gd.Specs[0].(*ast.ValueSpec)
				if len(vs.Names) != 1 || len(vs.Values) != 1 || vs.Type != nil || vs.Names[0].Name == "_" {
					continue
				}
				lit, ok := vs.Values[0].(*ast.FuncLit)
				if !ok {
					continue
				}
				obj := p.TypesInfo.Defs[vs.Names[0]]
				if obj == nil {
					continue
				}
				// a function of that name must not exist in the baseline either (the name would
				// then be taken for that mechanism)
				if baselineFns[short(p.PkgPath)+"."+obj.Name()] {
					continue
				}
				cands[obj] = &cand{p, gd, vs, lit, p.Fset.Position(f.Pos()).Filename}
			}
		}
	})
	if len(cands) == 0 {
		return res
	}
	// every use is the function of a call
	for _, p := range jiva {
		callFun := map[*ast.Ident]bool{}
		for _, f := range p.Syntax {
			ast.Inspect(f, func(n ast.Node) bool {
				if call, ok := n.(*ast.CallExpr); ok {
					switch fx := ast.Unparen(call.Fun).(type) {
					case *ast.Ident:
						callFun[fx] = true
					case *ast.SelectorExpr:
						callFun[fx.Sel] = true
					}
				}
				return true
			})
		}
		for id, obj := range p.TypesInfo.Uses {
			if cands[obj] != nil && !callFun[id] {
				delete(cands, obj)
			}
		}
	}
	if len(cands) == 0 {
		return res
	}
	edits := map[string][]inlineEdit{}
	var names []string
	for obj, c := range cands {
		fset := c.p.Fset
		b, ok := base[c.file]
		if !ok {
			b, _ = os.ReadFile(c.file)
		}
		res.Overlay[c.file] = b
		// `var X = func(` ... -> `func X(`
		st := fset.Position(c.gd.Pos()).Offset
		en := fset.Position(c.lit.Type.Params.Opening).Offset
		edits[c.file] = append(edits[c.file], inlineEdit{st, en, "func " + obj.Name()})
		names = append(names, short(c.p.PkgPath)+"."+obj.Name())
	}
	sort.Strings(names)
	for file, es := range edits {
		sort.Slice(es, func(i, j int) bool { return es[i].start < es[j].start })
		out := append([]byte{}, res.Overlay[file]...)
		for i := len(es) - 1; i >= 0; i-- {
			e := es[i]
			out = append(out[:e.start], append([]byte(e.text), out[e.end:]...)...)
		}
		res.Overlay[file] = out
	}
	res.Count = len(names)
	res.Notes = append(res.Notes, fmt.Sprintf("new function variable(s) that are only called, written as function declarations: %s", strings.Join(names, ", ")))
	return res
}
