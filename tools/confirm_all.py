#!/usr/bin/env python3
"""confirm_all.py <root> [N]: run tools/confirm_mut.sh for every <root>/<Cxx>/m<k> that has patch.diff, demo_test.go and
meta.json and no line yet in <root>/results.txt, N at a time (default 6), each in its own scratch worktree
/tmp/cfwt/<i> of /repo (created on demand; remove with --clean)."""
import sys, os, glob, subprocess, queue, concurrent.futures

def sh(cmd):
    return subprocess.run(cmd, shell=True, stdout=subprocess.PIPE, stderr=subprocess.STDOUT, text=True).stdout

if sys.argv[1] == "--clean":
    for d in glob.glob("/tmp/cfwt/*"):
        sh(f"git -C /repo worktree remove --force {d}")
    sh("rm -rf /tmp/cfwt; git -C /repo worktree prune")
    sys.exit(0)

root = sys.argv[1].rstrip("/")
N = int(sys.argv[2]) if len(sys.argv) > 2 else 6
res = f"{root}/results.txt"
done = set()
if os.path.exists(res):
    done = {l.split()[0] for l in open(res) if l.strip()}
todo = [d for d in sorted(glob.glob(f"{root}/C*/m*")) if d not in done and all(os.path.exists(f"{d}/{f}") for f in ("patch.diff", "demo_test.go", "meta.json"))]
os.makedirs("/tmp/cfwt", exist_ok=True)
slots = queue.Queue()
for i in range(N):
    w = f"/tmp/cfwt/{i}"
    if not os.path.isdir(w):
        sh(f"git -C /repo worktree add -q --detach {w} HEAD")
    slots.put(w)

def job(d):
    w = slots.get()
    try:
        out = sh(f"/verif/tools/confirm_mut.sh {d} {w}").strip().splitlines()
        line = out[-1] if out else f"{d} no-output"
        with open(res, "a") as f:
            f.write(line + "\n")
        return line
    finally:
        slots.put(w)

with concurrent.futures.ThreadPoolExecutor(N) as ex:
    for line in ex.map(job, todo):
        print(line)
