#!/usr/bin/env python3
"""par.py mut|benign <dir>... : apply each <dir>/patch.diff in a scratch worktree of /repo (under /tmp/parwt/<n>,
created on demand, removed with --clean) and run jivacheck there in parallel.
  mut    : run the patch's own property (meta.json "property"); expected: reported
  benign : run all 19 properties; expected: silent
Prints one line per patch; exit 1 if an expectation is not met."""
import sys, os, json, subprocess, concurrent.futures, queue, shutil, re

N = 12
BIN = os.environ.get("PAR_BIN", "/verif/bin/jivacheck")
ENV = dict(os.environ, GOFLAGS="-mod=mod", GOPROXY="off", GOSUMDB="off", GOTOOLCHAIN="local", GOWORK="off")
PROPS = ["C%02d" % i for i in range(1, 20)]
slots = queue.Queue()

def sh(cmd, cwd=None):
    return subprocess.run(cmd, shell=True, cwd=cwd, env=ENV, stdout=subprocess.PIPE, stderr=subprocess.STDOUT, text=True)

def setup():
    os.makedirs("/tmp/parwt", exist_ok=True)
    head = sh("git -C /repo rev-parse HEAD").stdout.strip()
    for i in range(N):
        d = f"/tmp/parwt/{i}"
        if not os.path.isdir(d):
            sh(f"git -C /repo worktree add -q --detach {d} HEAD")
        else:
            sh(f"git checkout -q --detach {head} && git checkout -q -- . && git clean -fdq", cwd=d)
        v = f"/tmp/parwt/verif{i}"
        os.makedirs(v, exist_ok=True)
        for f in ("known_findings.json", "baseline_symbols.json"):
            shutil.copy(f"/verif/{f}", f"{v}/{f}")
        slots.put(i)

def clean():
    for i in range(N):
        sh(f"git -C /repo worktree remove --force /tmp/parwt/{i}")
    shutil.rmtree("/tmp/parwt", ignore_errors=True)
    sh("git -C /repo worktree prune")

def job(mode, d):
    i = slots.get()
    try:
        wt, v = f"/tmp/parwt/{i}", f"/tmp/parwt/verif{i}"
        r = sh(f"git apply {d}/patch.diff", cwd=wt)
        if r.returncode != 0:
            return d, None, "patch does not apply"
        try:
            meta = json.load(open(f"{d}/meta.json"))
        except Exception:
            meta = {}
        props = [meta.get("property")] if mode == "mut" else PROPS
        if os.environ.get("PAR_PROPS"):
            props = os.environ["PAR_PROPS"].split(",")
        res = {}
        for p in props:
            r = sh(f"{BIN} -property {p} -repo {wt} -verif {v}")
            rules = sorted(set(re.findall(r"^  ((?:C\d\d-[A-Z0-9-]+|INTERNAL|CONFIG[a-z-]*))(?:\[tags=debug\])? \[(?:violated|undecided)\]", r.stdout, re.M)))
            if r.returncode != 0:
                res[p] = rules or ["rc=%d" % r.returncode]
                if mode == "benign":
                    txt = "\n".join(l[:420] for l in r.stdout.splitlines() if l.startswith("VIOLATION") or l.startswith("  C") or l.startswith("  construct"))
                    open(f"{d}/alarm_{p}.txt", "w").write(txt)
            elif mode == "benign" and os.path.exists(f"{d}/alarm_{p}.txt"):
                os.remove(f"{d}/alarm_{p}.txt")
        return d, res, meta.get("kind", "")
    finally:
        sh("git checkout -q -- . && git clean -fdq", cwd=f"/tmp/parwt/{i}")
        slots.put(i)

def main():
    # one run at a time: the scratch worktrees under /tmp/parwt are shared
    import fcntl
    os.makedirs("/tmp/parwt", exist_ok=True)
    lock = open("/tmp/parwt/.lock", "w")
    fcntl.flock(lock, fcntl.LOCK_EX)
    if len(sys.argv) >= 2 and sys.argv[1] == "--clean":
        clean(); return 0
    mode, dirs = sys.argv[1], [os.path.abspath(d) for d in sys.argv[2:] if os.path.isfile(os.path.join(d, "patch.diff"))]
    setup()
    bad = 0
    with concurrent.futures.ThreadPoolExecutor(N) as ex:
        futs = [ex.submit(job, mode, d) for d in dirs]
        out = [f.result() for f in futs]
    for d, res, extra in sorted(out, key=lambda x: x[0]):
        if res is None:
            print(f"{d}: {extra}"); bad += 1; continue
        if mode == "mut":
            if res:
                print(f"{d}: reported " + " ".join(f"{p}[{','.join(r)}]" for p, r in res.items()))
            else:
                print(f"{d}: MISSED"); bad += 1
        else:
            if res:
                print(f"{d} ({extra}): ALARM " + " ".join(f"{p}[{','.join(r)}]" for p, r in res.items())); bad += 1
            else:
                print(f"{d} ({extra}): silent")
    print(f"-- {len(out)} patches, {bad} not as expected")
    return 1 if bad else 0

sys.exit(main())
