#!/bin/bash
# run every collected mutant (/tmp/wtout/*/m*/patch.diff or /verif/seeded/*/patch.diff) against the given properties (default: its own)
mkdir -p /tmp/trymut_verif; cp /verif/baseline_symbols.json /tmp/trymut_verif/ 2>/dev/null; [ -f /tmp/trymut_verif/known_findings.json ] || echo "{\"findings\":[]}" > /tmp/trymut_verif/known_findings.json
props_all="$*"
for d in /verif/seeded/*; do
  [ -f $d/patch.diff ] || continue
  own=$(python3 -c "import json;print(json.load(open('$d/meta.json'))['property'])" 2>/dev/null)
  props=${props_all:-$own}
  cd /repo; git diff --quiet || { echo "repo dirty"; exit 2; }
  git apply $d/patch.diff 2>/dev/null || { echo "$d: patch does not apply"; continue; }
  res=""
  for p in $props; do
    out=$(/verif/bin/jivacheck -property $p -verif /tmp/trymut_verif 2>&1); rc=$?
    rules=$(echo "$out" | grep -A1 "^VIOLATION" | grep -o "C[0-9][0-9]-[A-Z0-9-]*\|INTERNAL" | sort -u | tr '\n' ',')
    res="$res $p:rc=$rc[$rules]"
  done
  git checkout -- . && git clean -fdq
  echo "$d (own=$own) ->$res"
done
