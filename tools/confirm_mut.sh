#!/bin/bash
# confirm_mut.sh <mutdir> <worktree>: confirm a seeded mutant at /repo's HEAD in a scratch worktree.
# prints one line: <mutdir> clean_demo=<pass|fail> build=<ok|fail> util=<pass|fail> mutant_demo=<pass|fail>
d=$1; wt=$2
export GOFLAGS=-mod=mod GOPROXY=off GOSUMDB=off GOTOOLCHAIN=local
cd $wt || exit 2
git checkout -q --detach $(git -C /repo rev-parse HEAD) 2>/dev/null; git checkout -q -- . ; git clean -fdq
dp=$(python3 -c "import json;print(json.load(open('$d/meta.json'))['demo_path'])")
dc=$(python3 -c "import json;print(json.load(open('$d/meta.json'))['demo_cmd'])")
cp $d/demo_test.go $wt/$dp
c1=fail; timeout 900 bash -c "$dc" > $d/confirm_clean.log 2>&1 && c1=pass
git apply $d/patch.diff || { echo "$d patch-does-not-apply"; exit 1; }
b=fail; go build ./... > $d/confirm_build.log 2>&1 && go test -vet=off -count=1 -run '^$' ./... >> $d/confirm_build.log 2>&1 && b=ok
u=fail; go test -vet=off -count=1 ./util/... > $d/confirm_util.log 2>&1 && u=pass
c2=pass; timeout 900 bash -c "$dc" > $d/confirm_mutant.log 2>&1 || c2=fail
git checkout -q -- . ; git clean -fdq
echo "$d clean_demo=$c1 build=$b util=$u mutant_demo=$c2"
