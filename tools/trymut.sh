#!/bin/bash
# usage: trymut.sh <patch.diff> <prop> [<prop>...]  — apply a patch to /repo, run the checks, always undo.
set -u
patch=$1; shift
mkdir -p /tmp/trymut_verif; cp /verif/baseline_symbols.json /verif/known_findings.json /tmp/trymut_verif/
cd /repo || exit 2
if ! git diff --quiet; then echo "repo dirty, refusing"; exit 2; fi
git apply "$patch" || { echo "patch does not apply"; exit 2; }
trap 'git -C /repo checkout -- . && git -C /repo clean -fdq ' EXIT
for p in "$@"; do
  out=$(/verif/bin/jivacheck -property "$p" -verif /tmp/trymut_verif 2>&1); rc=$?
  echo "== $p rc=$rc"
  echo "$out" | grep -A3 "^VIOLATION" | cut -c1-600 | head -40
done
