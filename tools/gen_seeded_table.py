#!/usr/bin/env python3
"""gen_seeded_table.py <allmut-output>: rewrite the generated table of later-round seeded changes in DESIGN.md
(between the SEEDED-TABLE markers) from /verif/seeded/*/meta.json and the output of tools/allmut.sh."""
import sys, re, json, glob, os
res = {}
for line in open(sys.argv[1]):
    m2 = re.match(r"/verif/seeded/(\S+): (reported .*|MISSED)", line)
    if m2:
        rules = sorted(set(re.findall(r"C\d\d-[A-Z0-9-]+", m2.group(2))))
        res[m2.group(1)] = ('1' if m2.group(2).startswith('reported') else '0', rules)
        continue
    m = re.match(r"/verif/seeded/(\S+) \(own=(\w+)\) -> (.*)", line)
    if m:
        rules = sorted(set(re.findall(r"C\d\d-[A-Z0-9-]+", m.group(3))))
        rc = re.search(r"rc=(\d)", m.group(3)).group(1)
        res[m.group(1)] = (rc, rules)
rows = []
for d in sorted(glob.glob('/verif/seeded/*')):
    name = os.path.basename(d)
    if not re.search(r"-r\d+m\d+$", name):
        continue
    meta = json.load(open(d + '/meta.json'))
    s = ' '.join(meta.get('summary', '').split())
    s = s.replace('|', '/')
    if len(s) > 230:
        cut = s[:230]
        s = cut[:cut.rfind(' ')] + ' …'
    rc, rules = res.get(name, ('?', []))
    rep = ', '.join(rules) if rc == '1' else '**MISSED**'
    rows.append(f"| {name} | {s} | {rep} |")
tab = "| change | what it does | reported by |\n|---|---|---|\n" + "\n".join(rows) + "\n"
p = '/verif/DESIGN.md'
t = open(p).read()
b, e = '<!-- SEEDED-TABLE-BEGIN -->\n', '<!-- SEEDED-TABLE-END -->'
i, j = t.index(b) + len(b), t.index(e)
open(p, 'w').write(t[:i] + tab + t[j:])
print(len(rows), 'rows;', sum(1 for r in rows if 'MISSED' in r), 'missed')
