#!/usr/bin/env python3
"""store_mut.py <results-file> <src-root> <tag>: copy mutants confirmed by tools/confirm_mut.sh
(lines '<dir> clean_demo=pass build=ok util=pass mutant_demo=fail') into /verif/seeded/<Cxx>-<tag>m<k>/"""
import sys, os, json, shutil, subprocess, re
res, root, tag = sys.argv[1:4]
head = subprocess.check_output(["git", "-C", "/repo", "rev-parse", "--short", "HEAD"]).decode().strip()
n = 0
for line in open(res):
    m = re.match(r"(\S+) clean_demo=(\w+) build=(\w+) util=(\w+) mutant_demo=(\w+)", line)
    if not m:
        continue
    d, c1, b, u, c2 = m.groups()
    if not d.startswith(root):
        continue
    if (c1, b, u, c2) != ("pass", "ok", "pass", "fail"):
        print("NOT CONFIRMED", line.strip())
        continue
    prop, mk = d.rstrip("/").split("/")[-2:]
    dst = f"/verif/seeded/{prop}-{tag}{mk}"
    os.makedirs(dst, exist_ok=True)
    shutil.copy(f"{d}/patch.diff", f"{dst}/patch.diff")
    shutil.copy(f"{d}/demo_test.go", f"{dst}/demo_test.go.txt")
    meta = json.load(open(f"{d}/meta.json"))
    meta["confirmed_by_me"] = {
        "at_repo_head": head,
        "how": "/verif/tools/confirm_mut.sh in a scratch git worktree of /repo: demo on clean tree, then git apply patch.diff, go build ./... && go test -run ^$ ./..., go test ./util/..., demo again",
        "clean_demo": c1, "mutant_build": b, "mutant_util_tests": u, "mutant_demo": c2,
    }
    meta["demo_file"] = "demo_test.go.txt (copy to demo_path as a _test.go file)"
    meta["round"] = tag
    json.dump(meta, open(f"{dst}/meta.json", "w"), indent=1)
    n += 1
print("stored", n)
