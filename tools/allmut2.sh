#!/bin/bash
# like allmut.sh but over an arbitrary glob of mutant dirs; runs own property + optional extra props
mkdir -p /tmp/benign_verif; cp /verif/known_findings.json /verif/baseline_symbols.json /tmp/benign_verif/ 2>/dev/null
for d in "$@"; do
  [ -f $d/patch.diff ] || continue
  own=$(python3 -c "import json;print(json.load(open('$d/meta.json'))['property'])" 2>/dev/null)
  cd /repo; git diff --quiet || { echo "repo dirty"; exit 2; }
  git apply $d/patch.diff 2>/dev/null || { echo "$d: patch does not apply"; continue; }
  out=$(/verif/bin/jivacheck -property $own -verif /tmp/benign_verif 2>&1); rc=$?
  rules=$(echo "$out" | grep -A1 "^VIOLATION" | grep -o "C[0-9][0-9]-[A-Z0-9-]*\|INTERNAL" | sort -u | tr '\n' ',')
  git checkout -- . && git clean -fdq
  echo "$d (own=$own) -> rc=$rc[$rules]"
done
