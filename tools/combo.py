#!/usr/bin/env python3
# benign rewrite + seeded change on top: the seeded change must still be reported.
import os, subprocess, glob, json, re, sys, random
ENV = dict(os.environ, GOFLAGS="-mod=mod", GOPROXY="off", GOSUMDB="off", GOTOOLCHAIN="local", GOWORK="off")
BIN = os.environ.get("PAR_BIN", "/verif/bin/jivacheck")
WT = "/tmp/combo/wt"; V = "/tmp/combo/verif"
def sh(cmd, cwd=None):
    return subprocess.run(cmd, shell=True, cwd=cwd, env=ENV, stdout=subprocess.PIPE, stderr=subprocess.STDOUT, text=True)
if not os.path.isdir(WT):
    sh(f"git -C /repo worktree add -q --detach {WT} HEAD")
os.makedirs(V, exist_ok=True)
for f in ("known_findings.json", "baseline_symbols.json"):
    sh(f"cp /verif/{f} {V}/{f}")
def files(p):
    return set(re.findall(r"^\+\+\+ b/(\S+)", open(p).read(), re.M))
muts = sorted(glob.glob("/verif/seeded/*/patch.diff"))
mfiles = {m: files(m) for m in muts}
random.seed(7)
bens = sorted(glob.glob(sys.argv[1] if len(sys.argv) > 1 else "/verif/benign/r9-*/patch.diff"))
tot = miss = 0
for b in bens:
    bf = files(b)
    cands = [m for m in muts if mfiles[m] & bf]
    random.shuffle(cands)
    done = 0
    for m in cands:
        if done >= int(os.environ.get("PER", "3")):
            break
        sh("git checkout -q -- . && git clean -fdq", cwd=WT)
        if sh(f"git apply {b}", cwd=WT).returncode != 0:
            break
        if sh(f"git apply {m}", cwd=WT).returncode != 0:
            continue
        if sh("go build ./...", cwd=WT).returncode != 0:
            continue
        prop = os.path.basename(os.path.dirname(m))[:3]
        r = sh(f"{BIN} -property {prop} -repo {WT} -verif {V}")
        done += 1; tot += 1
        ok = r.returncode != 0 and "VIOLATION" in r.stdout
        if not ok:
            miss += 1
        print(("reported " if ok else "MISSED   ") + os.path.basename(os.path.dirname(b)) + " + " + os.path.basename(os.path.dirname(m)), flush=True)
sh("git checkout -q -- . && git clean -fdq", cwd=WT)
print(f"-- {tot} combinations, {miss} missed")
