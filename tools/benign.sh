#!/bin/bash
# benign.sh <dir-with-b*/patch.diff>...: apply each behaviour-preserving patch to /repo, run ALL checks, undo; list alarms (false alarms).
mkdir -p /tmp/benign_verif; cp /verif/known_findings.json /verif/baseline_symbols.json /tmp/benign_verif/ 2>/dev/null
for base in "$@"; do
for d in $base/b*; do
  [ -f $d/patch.diff ] || continue
  cd /repo; git diff --quiet || { echo "repo dirty"; exit 2; }
  git apply $d/patch.diff 2>/dev/null || { echo "$d: patch does not apply"; continue; }
  res=""
  for p in 01 02 03 04 05 06 07 08 09 10 11 12 13 14 15 16 17 18 19; do
    out=$(/verif/bin/jivacheck -property C$p -verif /tmp/benign_verif 2>&1); rc=$?
    if [ $rc -ne 0 ]; then
      rules=$(echo "$out" | grep -A1 "^VIOLATION" | grep -o "C[0-9][0-9]-[A-Z0-9-]*\|INTERNAL\|CONFIG[a-z-]*" | sort -u | tr '\n' ',')
      res="$res C$p[$rules]"
      echo "$out" | grep -A2 "^VIOLATION" | grep -v "^--" | cut -c1-420 > $d/alarm_C$p.txt
    fi
  done
  git checkout -- . && git clean -fdq
  kind=$(python3 -c "import json;print(json.load(open('$d/meta.json')).get('kind',''))" 2>/dev/null)
  if [ -z "$res" ]; then echo "$d ($kind): silent"; else echo "$d ($kind): ALARM$res"; fi
done
done
