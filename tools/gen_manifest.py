#!/usr/bin/env python3
"""Generate /verif/MANIFEST.json from the table below (kept in one place so that the manifest is always valid)."""
import json, sys
ENV = "GOFLAGS=-mod=mod GOPROXY=off GOSUMDB=off GOTOOLCHAIN=local GOWORK=off"
claimed = json.load(open('/verif/tools/claims.json'))
props = [json.loads(l) for l in open('/verif/properties.jsonl')]
checks = []
na = []
for p in props:
    pid = p['id']
    c = claimed.get(pid)
    if not c or not c.get('claimed'):
        na.append({"property_id": pid, "reason": (c or {}).get('reason', 'rules for this property are not implemented yet (see DESIGN.md section 4 for the planned structural clauses)')})
        continue
    checks.append({
        "property_id": pid,
        "quick_cmd": f"{ENV} /verif/bin/jivacheck -property {pid} -tier quick",
        "thorough_cmd": f"{ENV} /verif/bin/jivacheck -property {pid} -tier thorough",
        "evidence_file": f"/verif/evidence/{pid}.json",
        "replay_cmd_template": f"{ENV} /verif/bin/jivacheck -property {pid} -explain {{path}}",
        "engine": "jivacheck",
        "level_claimed": {"category": "other", "text": c['level_text'], "design_ref": f"DESIGN.md section 4, {pid}"},
        "level_note": c['level_note'],
        "technique": c['technique'],
    })
m = {
    "version": 1,
    "setup_cmd": f"cd /verif/checker && {ENV} go build -o /verif/bin/jivacheck .",
    "hooks": {"guard": "verif", "enable": "none needed: the checks are static and execute nothing from /repo; no hook commits exist", "baseline_off_cmd": "cd /repo && GOFLAGS=-mod=mod go test -vet=off -count=1 -timeout 25m ./...", "source_commits": [], "add_only": True},
    "engines": [{"name": "jivacheck", "path": "/verif/checker", "serves_properties": [c['property_id'] for c in checks], "kind_free_text": "repository-specific static analyser over go/packages + go/ssa + VTA call graph (golang.org/x/tools v0.29.0): cut-set/must-pass-through path rules, normalised linear guard atoms, lock typestate, who-may-call allow-lists, error-discipline and codec sibling agreement"}],
    "checks": checks,
    "not_applicable": na,
    "notes": "All claims are at level 'other': each check decides structural clauses that are necessary conditions of the property (listed in DESIGN.md section 4 and in each evidence file), never the behavioural statement itself. Every run re-loads /repo's current working tree. Known genuine defects are in /verif/known_findings.json.",
}
json.dump(m, open('/verif/MANIFEST.json', 'w'), indent=1)
print("checks:", len(checks), "not_applicable:", len(na))
