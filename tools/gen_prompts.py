#!/usr/bin/env python3
"""gen_prompts.py mut <round> <outdir>   : one prompt per property (sub-agents that seed property-breaking changes)
   gen_prompts.py benign <round> <outdir>: one prompt per property group (sub-agents that write property-preserving changes)
The prompts carry only the property text (from /verif/properties.jsonl) and, for mut, one-line summaries of the
changes earlier sub-agents already delivered for that property (so that new ones pick other sites) - nothing
about the checker or its rules."""
import sys, json, glob, os

PROPS = [json.loads(l) for l in open("/verif/properties.jsonl")]
BYID = {p["id"]: p for p in PROPS}

MUT_KINDS = {
 "r7": """- For THIS round, each change is a small piece of ordinary maintenance work whose author did not intend to touch the property at all — write it the way it would appear as a pull request, 10-60 changed lines, with a one-line commit subject in meta.json ("subject"): (a) one small FEATURE or operational improvement (a new option or environment knob, a retry, a cache, batching, a timeout change, a new log/metric that needs a value computed earlier, an early-exit fast path, support for a new input form) that breaks the property as a side effect in some situation; (b) one well-meant ROBUSTNESS or bug FIX (avoid a panic, avoid a deadlock, tolerate a missing file, ignore a "harmless" error, be lenient with an unexpected state or an old peer, make an operation idempotent) that over-corrects; (c) one PERFORMANCE or CLEAN-UP change (avoid a second pass / a lock / a sync / an allocation, merge two steps, drop a "redundant" check or a "dead" branch, reuse a value read earlier, simplify a condition) that is not equivalent in a corner case. Prefer sites that previous changes have not used; at least one of the three OUTSIDE the files named in the anchors.""",
 "r10": """- For THIS round, write each change as a REFACTORING pull request that claims "no functional change" (15-80 changed lines, one-line commit subject in meta.json "subject") and in which one subtle slip breaks the property. Use a different refactoring for each of the three: (a) the old function name is kept as a thin wrapper of a new variant with an extra parameter (…WithContext / …WithReason / …WithOptions), the body moves to the variant, and the slip is in what the wrapper or some converted caller passes, in a default of the new parameter, or in a statement that did not make it into the variant unchanged; (b) a run of statements is extracted into one or two helpers (or a helper is inlined), a loop becomes a helper that returns early, an if-chain becomes a switch or a table, Lock/Unlock pairs become Lock+defer - and a condition, an order of effects, an early exit, a lock region or an error path comes out slightly different; (c) a dependency is put behind an interface, a function variable or a small struct of options (test seam / configuration), or a value is cached in a field, or two similar functions are merged into one with a flag - and one call site, default or branch no longer does what it did. The diff must read like an honest clean-up: a reviewer skimming it should believe the commit subject.""",
 "r9": """- For THIS round, write each change as a plausible pull request (10-60 changed lines, one-line commit subject in meta.json "subject") of one of these three kinds: (a) a PROTOCOL change between two components or processes (controller <-> replica REST API, controller <-> replica data RPC, replica <-> sync agent, controller <-> frontend, REST client <-> handler): one side changes what it assumes about the order of steps, idempotency, the meaning / unit / encoding of a field, a default, or a status code, and the other side is left as it is; (b) a change of ERROR CLASSIFICATION: which errors are fatal, retried, ignored, logged-and-continued or mapped to another error / status - including partial failure across a fan-out, EOF / not-exist / already-exists special cases, comparison with a sentinel or by message text, and what is reported to the caller versus acted upon; (c) a RESOURCE-LIFETIME or INITIALISATION-ORDER change: something is created, registered, started, closed, reset or released earlier or later than before, or is reused (file descriptor, buffer, channel, client, goroutine, map), or a zero value / default acquires a different meaning. Prefer sites that previous changes have not used; at least one of the three OUTSIDE the files named in the anchors.""",
 "r8": """- For THIS round, each change must need TWO things to go wrong together, so that a reviewer who looks at any single function sees nothing wrong: (a) one change made of TWO cooperating edits in two different functions (or files) that each look harmless alone — e.g. a helper whose contract is subtly widened plus a caller that now relies on the old contract, a value cached in one place and invalidated in another, a field whose meaning shifts, a default that changes plus a site that relied on it; the property breaks only through their combination; (b) one change on a FAULT or CANCELLATION path — what happens when a disk write, a network call, a peer, or a process dies at one specific point (partial failure among several replicas / files / steps, an error after a side effect, a clean-up that undoes too much or too little, a retry that repeats a non-idempotent step); (c) one change that is only wrong under a particular CONCURRENT schedule (a lock region narrowed, split or taken in another mode, a check moved outside the region that uses it, state read twice, a goroutine or callback that now runs at a different moment, a channel whose capacity / closing changed). Write each as a plausible pull request, 10-60 changed lines, with a one-line commit subject in meta.json ("subject"). Prefer sites that previous changes have not used; at least one of the three OUTSIDE the files named in the anchors.""",
}

def prop_text(p, with_anchors_label="Where it lives (anchors)"):
    return (f"THE PROPERTY ({p['id']}): {p['title']}\nStatement: {p['statement']}\n"
            f"Quantified over: {p['quantifier']['text']}\n{with_anchors_label}: {json.dumps(p['anchors'])}\n")

def known(pid):
    out = []
    for f in sorted(glob.glob(f"/verif/seeded/{pid}-*/meta.json")):
        try:
            m = json.load(open(f))
        except Exception:
            continue
        s = (m.get("summary") or "").replace("\n", " ")
        if s:
            out.append("    * " + s[:160])
    return "\n".join(out)

def mut_prompt(p, rnd, wt, out):
    pid = p["id"]
    return f"""You are helping evaluate how well a verification effort protects a Go project. You get one semantic property of the project and your own scratch git worktree of it. Your job: produce THREE independent, realistic source changes ("seeded defects") to the project, each of which BREAKS the property below while the project still compiles and its existing test suite still passes, and for each a demonstration (a Go test) that FAILS with the change applied and PASSES without it.

Project: openebs/jiva (Go iSCSI block-storage controller that synchronously replicates writes to replicas storing sparse-file snapshot chains; quorum-based RW mode; replica rebuild). Your worktree (work ONLY here, never touch /repo or /verif): {wt}/{pid}
Environment for every shell command (no network!): export GOFLAGS=-mod=mod GOPROXY=off GOSUMDB=off GOTOOLCHAIN=local
Build: go build ./... && go test -vet=off -count=1 -run '^$' ./...   Existing pinned test suite: go test -vet=off -count=1 ./util/...   (other packages' old test suites are NOT part of the pinned suite; several hang or need tags; do not rely on them. Write your own demonstration tests.)

{prop_text(p)}
What makes a good change:
- It is the kind of edit a maintainer could plausibly make (refactoring slip, "optimisation", well-meant "fix", clean-up, moved statement, wrong variable, changed condition, lost return, lock scope change, error-handling slip...) — small (a few lines up to ~30), compiles, `go vet`-clean if possible, and does NOT break the pinned suite or the build of test files.
- It needs something SPECIFIC to manifest: a particular interleaving, a crash or fault at a particular point, a multi-step sequence of operations, an unusual input, or two cooperating sites that each look fine alone. NOT something ordinary use would expose at once.
- The three changes must be independent of each other (each a separate patch against the clean worktree HEAD), must break the property in three DIFFERENT ways, and should touch different functions — preferably at least one outside the most obvious function, e.g. in a helper, a sibling implementation, a caller, the REST/RPC layer, start-up code, or an error path. Be creative: think about which less-visited code paths the property silently depends on.
- Do not merely delete a whole feature; prefer subtle semantic changes.
{MUT_KINDS[rnd]}
- Changes already known for this property (do NOT repeat these sites/ideas; find different functions and different mechanisms):
{known(pid)}

The demonstration: a `_test.go` file (package-internal tests are fine; use fakes/in-memory backends/temp dirs/httptest as needed; must run offline in < 2 minutes; must be deterministic — if it needs an interleaving, force it with channels/hooks in the test, not sleeps where avoidable). It must pass on the clean worktree and fail (test failure, panic, or deadlock detected by a timeout inside the test) with the patch applied. The test must not depend on the patch to compile (it must compile on the clean tree too).

Deliverables — for k = 1,2,3 write into {out}/{pid}/m<k>/ :
  patch.diff     — `git diff` of the change only (NOT including the demo test), applying cleanly with `git apply` to the clean worktree HEAD
  demo_test.go   — the demonstration test file
  meta.json      — {{"property":"{pid}","mutant":k,"subject":"...","files":[...changed files...],"summary":"what was changed and the maintainer rationale","why_breaks":"...","needs_to_manifest":"...","demo_path":"<path relative to repo root where demo_test.go must be copied, e.g. replica/zz_demo_{pid}_{rnd}m<k>_test.go>","demo_cmd":"go test -vet=off -count=1 -run <TestName> ./<pkg>/","demo_notes":"...","ran":{{"clean_demo":"pass","mutant_build":"ok","mutant_util_tests":"pass","mutant_demo":"fail: <message>"}}}}
Use test function names unique to you (e.g. Test{pid}{rnd.upper()}M<k>...).

Procedure for each: start from a clean worktree (git checkout -- . && git clean -fdq), write the demo, run it on the clean tree (must pass), apply your change, run the build command, the pinned suite and the demo (must fail), save `git diff -- . ':!*zz_demo*'` as patch.diff, then restore the clean worktree. Verify at the end that each patch.diff applies to a clean tree with `git apply --check`. Leave the worktree clean when done. Do not read or write anything under /verif. Do not commit anything.

Finish with a short report: per change one paragraph (what, why it breaks the property, what it needs to manifest) and the observed clean/mutant demo results. If you could only produce fewer than three confirmed changes, deliver those and say so."""

GROUPS = {
 "G1": ["C01", "C06", "C11", "C12"],
 "G2": ["C02", "C03", "C05", "C18"],
 "G3": ["C04", "C07", "C09", "C19"],
 "G4": ["C08", "C10", "C16", "C12"],
 "G5": ["C13", "C14", "C17"],
 "G6": ["C15", "C02", "C10", "C14"],
}

BENIGN_KINDS = {
 "r7": """ 1. add logging / a debug trace with values computed in the function (without moving any read of shared state across a lock boundary);
 2. add a prometheus-style counter or a latency measurement around an operation (defer-based timing, counters on the error branches);
 3. improve error messages: wrap or reword errors with more context WITHOUT changing which calls fail, their dynamic type where a caller asserts it, or sentinel errors that callers compare;
 4. add a new read-only REST endpoint or a new field in an existing status answer, filled from state that is read under the proper lock;
 5. add input validation that refuses, with an error, requests that were ALREADY failing later (same observable refusal, earlier and clearer) — nothing that was accepted before may be refused;
 6. add a configuration knob (environment variable or option) whose DEFAULT keeps today's behaviour exactly, and thread it to where it is used;
 7. add defensive code that cannot trigger in any reachable state (a nil check before a dereference that is already guarded, a bounds check that is implied), with a log line;
 8. add doc comments, rename unexported identifiers for clarity, and reorder declarations within a file / move a helper type to a new file of the same package;
 9. add a context/trace id or an extra parameter that is passed through several layers and only logged;
 10. replace a deprecated or verbose library idiom by its modern equivalent with identical semantics (ioutil -> os/io, fmt.Errorf("%v", err) kept as is where callers compare text, strings.Replace(..., -1) -> ReplaceAll, sort.Slice stable where it already was, time.Since, etc.).""",
}

BENIGN_KINDS["r8"] = """ 1. thread a context.Context (or a request-scoped logger) as a NEW FIRST parameter through two or three layers of calls, used only for logging / cancellation checks that cannot fire today (context.Background() at the roots);
 2. introduce typed constants / a small named type for a set of magic strings or numbers used in comparisons (states, modes, action names, suffixes) and use them at every comparison site, values unchanged;
 3. wrap errors with %w and switch the comparison sites that test them to errors.Is / errors.As, keeping which calls fail and every caller-visible decision exactly as before;
 4. introduce a small interface in front of a concrete dependency (file system calls, HTTP client, clock) with the production implementation forwarding 1:1, to make the code unit-testable; wire it through a struct field set in the constructor;
 5. restructure control flow of one mid-size function: nested if/else into guard clauses with early returns, or an if/else-if chain into a switch (or the reverse), or a loop with flags into a helper that returns - same paths, same order of effects;
 6. introduce a generic-free utility helper (contains / indexOf / min / max / clamp / a small set type) and use it in place of two or three hand-written loops or comparisons;
 7. make iteration order deterministic for LOGGING or listing purposes only (sorted keys when printing / when building a REST answer that is a list) without changing which elements are processed or any decision;
 8. split one long function into two or three named phases (validate / execute / publish) that are called in sequence from the original entry point under the same lock, or merge two tiny helpers back into their only caller;
 9. replace a hand-rolled synchronisation or bookkeeping idiom by its equivalent: Lock/Unlock pairs by Lock + defer Unlock in a function that has a single exit region, a counter + loop by a WaitGroup-free errgroup-like helper of your own ONLY if ordering and error semantics are identical, manual slice removal by an equivalent append-splice helper, a boolean flag pair by one small state variable;
 10. add unit-test seams that are inert in production: package-level function variables defaulting to the real function (var osRemove = os.Remove) used at the call sites, or optional hooks that are nil in production and nil-checked."""

BENIGN_KINDS["r9"] = """ Each of the ten patches COMBINES TWO of the following kinds in the same functions (choose ten different pairs; name the pair in meta.json "kind"):
 A. thread a context.Context or a request id / reason string through two or three layers (context.Background() or a constant at the roots), used only for logging or checks that cannot fire;
 B. typed constants / a small named type for magic strings and numbers at every comparison site, values unchanged;
 C. %w wrapping plus errors.Is / errors.As at the comparison sites, same decisions;
 D. an interface or a package-level function variable in front of a concrete dependency (test seam), production wiring 1:1;
 E. control-flow restructuring with identical paths and order of effects (guard clauses, switch <-> if-chain, loop with flag -> helper that returns);
 F. extraction of one or two helpers (or inlining a tiny helper into its only caller), including helpers that take the receiver's fields as parameters;
 G. logging / metrics / latency measurement added around an operation (defer-based timing, counters on error branches) without moving any read of shared state across a lock boundary;
 H. error messages reworded or enriched with context, no change in which calls fail or in any error value a caller compares or asserts;
 I. Lock/Unlock pairs <-> Lock + defer Unlock where the function has a single exit region, or a lock region moved into a helper that covers exactly the same statements;
 J. renaming of unexported identifiers, moving declarations to a new file of the same package, doc comments;
 K. earlier, clearer refusal of an input that was ALREADY refused later in every state (nothing accepted before may be refused);
 L. a configuration knob (environment variable / option) whose default keeps today's behaviour exactly."""

def benign_prompt(g, rnd, wt, out):
    props = "\n".join(f"PROPERTY {pid}: {BYID[pid]['title']}\nStatement: {BYID[pid]['statement']}\nAnchors: {json.dumps(BYID[pid]['anchors'])}\n" for pid in GROUPS[g])
    return f"""You are helping evaluate the FALSE-ALARM rate of source-level checkers that guard a Go project. You get some semantic properties of the project and your own scratch git worktree. Your job: produce TEN independent source changes to the code these properties depend on that are ORDINARY MAINTENANCE WORK and leave every one of these properties intact. A correct checker must stay silent on every one of them. Unlike a pure refactoring they MAY change behaviour that no listed property talks about (a log line, a metric, an error message text, an extra read-only endpoint, a new field in a status answer, a clearer refusal of an input that was already refused), but every guarantee stated in the properties below must hold exactly as before in every execution.

Project: openebs/jiva (Go iSCSI block-storage controller replicating writes to replicas that store sparse-file snapshot chains). Your worktree (work ONLY here, never touch /repo or /verif): {wt}/{g}
Environment for every shell command (no network!): export GOFLAGS=-mod=mod GOPROXY=off GOSUMDB=off GOTOOLCHAIN=local
Build check: go build ./... && go test -vet=off -count=1 -run '^$' ./... && go vet ./<changed pkgs>   Pinned tests: go test -vet=off -count=1 ./util/...

{props}
Make each change the kind of small pull request a maintainer really sends, 15-80 changed lines, IN or RIGHT NEXT TO the functions that implement these properties (read the anchored code first). Use a DIFFERENT kind for each of the ten:
{BENIGN_KINDS[rnd]}
Be strict about the properties: do not move a check across a lock boundary, do not move a read of shared state out of the lock region that protects it, do not change which errors are returned to callers that act on them or when, do not reorder effects that can fail, do not change persisted bytes or wire formats, do not add blocking operations under a lock. If in doubt, pick another change.
Spread the ten over different functions and files among the anchors (controller, replica, rpc, sync, rest layers as applicable).

Deliverables — for k = 1..10 write into {out}/{g}/b<k>/ :
  patch.diff  — `git diff` against the clean worktree HEAD (must apply with `git apply` to a clean tree)
  meta.json   — {{"group":"{g}","k":k,"kind":"<which kind>","files":[...],"functions":[...],"summary":"what was changed","why_property_preserving":"argument that every listed property still holds; what (if anything) observably changes"}}
Each patch is independent (start each from a clean worktree: git checkout -- . && git clean -fdq). For each: apply, run the build check and pinned tests (must pass), save the diff, restore. Verify with `git apply --check` at the end. Leave the worktree clean. Do not read or write anything under /verif. Do not commit. Finish with a one-line-per-patch report."""

def main():
    mode, rnd, outdir = sys.argv[1:4]
    os.makedirs(outdir, exist_ok=True)
    if mode == "mut":
        for p in PROPS:
            open(f"{outdir}/{p['id']}.txt", "w").write(mut_prompt(p, rnd, "/tmp/wt", f"/tmp/wtout_{rnd}"))
    else:
        for g in GROUPS:
            open(f"{outdir}/{g}.txt", "w").write(benign_prompt(g, rnd, "/tmp/wtb", f"/tmp/bout_{rnd}"))

main()
